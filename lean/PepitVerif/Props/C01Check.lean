import PepitVerif.Props.C01

/-!
# Property C01: what a passing `check_feasibility` proves

`check_feasibility` rebuilds, from the multipliers it reads back from the objects, the expression
`ident = objective − (Σ λ_c·expr_c − ⟨residual, Gram⟩ − Σ ⟨Λ_k, T_k⟩)`, symmetrises and prunes it, returns its
constant as the dual value and the `ℓ¹` norm of the rest as `remaining`.

`check_passes_bound_valid` composes `reconstruction_spec` (C01), weak duality (`cert_sound`) and the sign conditions
the same function checks: **if the remaining terms are `0`, the multipliers of the inequalities are nonnegative and the
residual and the matrix multipliers are positive semidefinite, then the returned dual value bounds the objective at
every feasible point** — every symmetric positive semidefinite Gram matrix and function values satisfying the sent
constraints and LMIs — so in particular at the Gram matrix of every real execution (C09).

`identOf` builds `ident` with the model's own operators for scalar constraints (the part PEPit builds with
`Σ dual·expression`), and `evalGF_identOf` proves that it denotes the combination, so for models without LMIs
the hypothesis `hident` is discharged (`scalar_check_passes_bound_valid`).
-/

open Matrix

namespace Pepit.C01

/-- the leading `n × n` block of a Gram function as a matrix -/
def gramOf (n : Nat) (G : Nat → Nat → ℝ) : Matrix (Fin n) (Fin n) ℝ := Matrix.of fun i j => G i.1 j.1

/-- **a passing `check_feasibility` certifies the returned value** -/
theorem check_passes_bound_valid {ι κ : Type*} [Fintype ι] [Fintype κ] (n : Nat)
    {p : κ → Type*} [∀ k, Fintype (p k)] [∀ k, DecidableEq (p k)]
    (obj : EDict) (cons : ι → EDict) (isEq : ι → Bool) (lam : ι → ℝ)
    (S : Matrix (Fin n) (Fin n) ℝ)
    (T : (k : κ) → p k → p k → EDict) (Lam : (k : κ) → Matrix (p k) (p k) ℝ)
    (ident : EDict) (hnd : (Dict.keys ident).Nodup)
    -- `remaining_terms == 0`
    (hrem : (EDict.finishReconstruction ident).2 = 0)
    -- `ident` is the expression `check_feasibility` builds from the exposed multipliers
    (hident : ∀ (G : Nat → Nat → ℝ) (F : Nat → ℝ), (∀ i j, G i j = G j i) →
      EDict.evalGF G F ident = EDict.evalGF G F obj -
        ((∑ i, lam i * EDict.evalGF G F (cons i)) - (S * gramOf n G).trace -
          ∑ k, (Lam k * Matrix.of (fun a b => EDict.evalGF G F (T k a b))).trace))
    -- the sign conditions
    (hlam : ∀ i, isEq i = false → 0 ≤ lam i) (hS : S.PosSemidef) (hLam : ∀ k, (Lam k).PosSemidef)
    -- any feasible point of the problem that was sent
    (G : Nat → Nat → ℝ) (F : Nat → ℝ) (hG : ∀ i j, G i j = G j i) (hGpsd : (gramOf n G).PosSemidef)
    (hfeas : ∀ i, if isEq i then EDict.evalGF G F (cons i) = 0 else EDict.evalGF G F (cons i) ≤ 0)
    (hT : ∀ k, (Matrix.of (fun a b => EDict.evalGF G F (T k a b))).PosSemidef) :
    EDict.evalGF G F obj ≤ (((EDict.finishReconstruction ident).1 : ℚ) : ℝ) := by
  set τ : ℝ := (((EDict.finishReconstruction ident).1 : ℚ) : ℝ) with hτ
  let X := { x : (Nat → Nat → ℝ) × (Nat → ℝ) // ∀ i j, x.1 i j = x.1 j i }
  have key := cert_sound (X := X) (fun x => EDict.evalGF x.1.1 x.1.2 obj) τ
    (fun i x => EDict.evalGF x.1.1 x.1.2 (cons i)) isEq lam (fun x => gramOf n x.1.1) S
    (fun k x => Matrix.of (fun a b => EDict.evalGF x.1.1 x.1.2 (T k a b))) Lam
    (by
      intro x
      have h1 := hident x.1.1 x.1.2 x.2
      have h2 := reconstruction_spec x.1.1 x.1.2 x.2 ident hnd hrem
      rw [h2] at h1
      simp only [hτ]; linarith)
    hlam hS hLam ⟨(G, F), hG⟩ hfeas hGpsd hT
  exact key

/-! ## the scalar part of the identity, built with the model's operators -/

/-- `Σ dual·expression` accumulated as `check_feasibility` does, starting from `acc` -/
def combo : EDict → List (Coef × EDict) → EDict
  | acc, [] => acc
  | acc, (l, c) :: rest => combo (EDict.add acc (EDict.smul l c)) rest

/-- `objective − Σ λ_c · expr_c` -/
def identOf (obj : EDict) (lc : List (Coef × EDict)) : EDict := EDict.sub obj (combo [] lc)

theorem evalGF_add (G : Nat → Nat → ℝ) (F : Nat → ℝ) (a b : EDict) (hb : (Dict.keys b).Nodup) :
    EDict.evalGF G F (EDict.add a b) = EDict.evalGF G F a + EDict.evalGF G F b := by
  unfold EDict.evalGF EDict.add; rw [Dict.denM_prune, Dict.denM_merge _ _ _ hb]

theorem evalGF_smul (G : Nat → Nat → ℝ) (F : Nat → ℝ) (c : Coef) (a : EDict) :
    EDict.evalGF G F (EDict.smul c a) = ((c : ℚ) : ℝ) * EDict.evalGF G F a := by
  unfold EDict.evalGF EDict.smul; rw [Dict.denM_scale]; simp [mul_comm]

theorem wf_combo : ∀ (lc : List (Coef × EDict)) (acc : EDict), (Dict.keys acc).Nodup → (Dict.keys (combo acc lc)).Nodup
  | [], acc, h => h
  | (l, c) :: rest, acc, h => wf_combo rest _ (EDict.wf_add _ _ h)

theorem evalGF_combo (G : Nat → Nat → ℝ) (F : Nat → ℝ) :
    ∀ (lc : List (Coef × EDict)) (acc : EDict), (∀ x ∈ lc, (Dict.keys x.2).Nodup) →
      EDict.evalGF G F (combo acc lc) =
        EDict.evalGF G F acc + (lc.map (fun x => ((x.1 : ℚ) : ℝ) * EDict.evalGF G F x.2)).sum
  | [], acc, _ => by simp [combo]
  | (l, c) :: rest, acc, h => by
    have hc : (Dict.keys c).Nodup := h (l, c) (by simp)
    rw [combo, evalGF_combo G F rest _ (fun x hx => h x (by simp [hx])),
      evalGF_add G F acc _ (EDict.wf_smul l c hc), evalGF_smul]
    simp [add_assoc]

/-- **`identOf` denotes `objective − Σ λ·c`** for duplicate-free constraint expressions -/
theorem evalGF_identOf (G : Nat → Nat → ℝ) (F : Nat → ℝ) (obj : EDict) (lc : List (Coef × EDict))
    (h : ∀ x ∈ lc, (Dict.keys x.2).Nodup) :
    EDict.evalGF G F (identOf obj lc) =
      EDict.evalGF G F obj - (lc.map (fun x => ((x.1 : ℚ) : ℝ) * EDict.evalGF G F x.2)).sum := by
  unfold identOf EDict.sub EDict.neg
  rw [evalGF_add G F obj _ (EDict.wf_smul _ _ (wf_combo lc [] (by simp [Dict.keys]))), evalGF_smul,
    evalGF_combo G F lc [] h]
  simp [EDict.evalGF, Dict.denM]; ring

/-- non-vacuity: objective `f₀`, one constraint `f₀ − ⟨p₀,p₀⟩ ≤ 0` with multiplier 1, one constraint
`⟨p₀,p₀⟩ − 1 ≤ 0` with multiplier 1: the identity reduces to the constant 1, nothing remains -/
example : EDict.finishReconstruction
    (identOf [(.f 0, 1)] [(1, [(.f 0, 1), (.ip 0 0, -1)]), (1, [(.ip 0 0, 1), (.one, -1)])]) = (1, 0) := by
  decide +kernel

/-! ## models without LMIs: the whole identity is built by the model's operators -/

/-- `⟨S, Gram⟩` as an expression over the leaf points `0 … n−1` (PEPit: `np.dot(points, S·points)`) -/
def gramDict (n : Nat) (S : Nat → Nat → Coef) : EDict :=
  (List.range n).flatMap (fun i => (List.range n).map (fun j => (EKey.ip i j, S i j)))

theorem keys_gramDict (n : Nat) (S : Nat → Nat → Coef) :
    Dict.keys (gramDict n S) = (List.range n).flatMap (fun i => (List.range n).map (fun j => EKey.ip i j)) := by
  unfold gramDict Dict.keys
  rw [List.map_flatMap]
  congr 1; funext i; simp [List.map_map, Function.comp]

theorem nodup_gramDict (n : Nat) (S : Nat → Nat → Coef) : (Dict.keys (gramDict n S)).Nodup := by
  rw [keys_gramDict]
  apply List.nodup_flatMap.mpr
  constructor
  · intro i _
    exact List.Nodup.map (fun a b h => by simpa using h) List.nodup_range
  · apply List.Pairwise.imp_of_mem (R := fun a b => a ≠ b)
    · intro i j _ _ hij
      intro k hk1 hk2
      simp only [List.mem_map, List.mem_range] at hk1 hk2
      obtain ⟨a, _, rfl⟩ := hk1
      obtain ⟨b, _, hb⟩ := hk2
      simp only [EKey.ip.injEq] at hb
      exact hij hb.1.symm
    · exact List.nodup_range

theorem list_range_sum (n : Nat) (f : Nat → ℝ) : ((List.range n).map f).sum = ∑ i : Fin n, f i.1 := by
  induction n with
  | zero => simp
  | succ n ih => rw [List.range_succ, List.map_append, List.sum_append, ih, Fin.sum_univ_castSucc]; simp

theorem evalGF_gramDict (n : Nat) (S : Nat → Nat → Coef) (G : Nat → Nat → ℝ) (F : Nat → ℝ) :
    EDict.evalGF G F (gramDict n S) = ∑ i : Fin n, ∑ j : Fin n, ((S i.1 j.1 : ℚ) : ℝ) * G i.1 j.1 := by
  unfold EDict.evalGF Dict.denM gramDict
  rw [List.map_flatMap, List.flatMap_def, List.sum_flatten, List.map_map,
    ← list_range_sum n (fun i => ∑ j : Fin n, ((S i j.1 : ℚ) : ℝ) * G i j.1)]
  congr 1
  apply List.map_congr_left
  intro i _
  simp only [Function.comp, List.map_map]
  rw [← list_range_sum n (fun j => ((S i j : ℚ) : ℝ) * G i j)]
  congr 1

/-- the rational residual as a real matrix -/
def matOf (n : Nat) (S : Nat → Nat → Coef) : Matrix (Fin n) (Fin n) ℝ := Matrix.of fun i j => ((S i.1 j.1 : ℚ) : ℝ)

theorem trace_matOf_gramOf (n : Nat) (S : Nat → Nat → Coef) (G : Nat → Nat → ℝ) (hG : ∀ i j, G i j = G j i) :
    (matOf n S * gramOf n G).trace = ∑ i : Fin n, ∑ j : Fin n, ((S i.1 j.1 : ℚ) : ℝ) * G i.1 j.1 := by
  unfold Matrix.trace matOf gramOf
  apply Finset.sum_congr rfl
  intro i _
  simp only [Matrix.diag_apply, Matrix.mul_apply, Matrix.of_apply]
  apply Finset.sum_congr rfl
  intro j _
  rw [hG j.1 i.1]

/-- `objective − Σ λ_c·expr_c + ⟨S, Gram⟩`: the expression `check_feasibility` reconstructs for a model without LMIs -/
def identFull (obj : EDict) (lc : List (Coef × EDict)) (n : Nat) (S : Nat → Nat → Coef) : EDict :=
  EDict.add (identOf obj lc) (gramDict n S)

/-- **models without LMIs, no semantic hypothesis left**: if the reconstruction of the identity built by the
model's own operators leaves nothing (`remaining = 0`), the multipliers of inequalities are nonnegative and the
residual is positive semidefinite, the returned constant bounds the objective at every feasible point -/
theorem scalar_check_passes_bound_valid (n : Nat) (obj : EDict) (hobj : (Dict.keys obj).Nodup)
    (lc : List (Coef × EDict)) (isEq : Fin lc.length → Bool) (S : Nat → Nat → Coef)
    (hwf : ∀ x ∈ lc, (Dict.keys x.2).Nodup)
    (hrem : (EDict.finishReconstruction (identFull obj lc n S)).2 = 0)
    (hlam : ∀ i, isEq i = false → 0 ≤ (lc.get i).1) (hS : (matOf n S).PosSemidef)
    (G : Nat → Nat → ℝ) (F : Nat → ℝ) (hG : ∀ i j, G i j = G j i) (hGpsd : (gramOf n G).PosSemidef)
    (hfeas : ∀ i, if isEq i then EDict.evalGF G F (lc.get i).2 = 0 else EDict.evalGF G F (lc.get i).2 ≤ 0) :
    EDict.evalGF G F obj ≤ (((EDict.finishReconstruction (identFull obj lc n S)).1 : ℚ) : ℝ) := by
  have hnd : (Dict.keys (identFull obj lc n S)).Nodup := by
    unfold identFull identOf EDict.sub
    exact EDict.wf_add _ _ (EDict.wf_add _ _ hobj)
  refine check_passes_bound_valid (ι := Fin lc.length) (κ := Empty) (p := fun _ => Empty) n obj
    (fun i => (lc.get i).2) isEq (fun i => (((lc.get i).1 : ℚ) : ℝ)) (matOf n S)
    (fun k => k.elim) (fun k => k.elim) (identFull obj lc n S) hnd hrem ?_ ?_ hS (fun k => k.elim) G F hG hGpsd hfeas
    (fun k => k.elim)
  · intro G' F' hG'
    unfold identFull
    rw [evalGF_add G' F' _ _ (nodup_gramDict n S), evalGF_identOf G' F' obj lc hwf, evalGF_gramDict,
      trace_matOf_gramOf n S G' hG']
    have hsum : (lc.map (fun x => ((x.1 : ℚ) : ℝ) * EDict.evalGF G' F' x.2)).sum =
        ∑ i : Fin lc.length, (((lc.get i).1 : ℚ) : ℝ) * EDict.evalGF G' F' (lc.get i).2 := by
      rw [← List.sum_ofFn]; congr 1
      apply List.ext_get <;> simp
    rw [hsum]; simp only [List.get_eq_getElem]; ring
  · intro i hi
    have := hlam i hi
    exact_mod_cast this

/-- non-vacuity of `scalar_check_passes_bound_valid`: objective `f₀`, `f₀ − ⟨p₀,p₀⟩ ≤ 0` and `⟨p₀,p₀⟩ − 1 ≤ 0` with
multipliers 1 and 1, residual 0: nothing remains and the certified bound is 1 -/
example : EDict.finishReconstruction
    (identFull [(.f 0, 1)] [(1, [(.f 0, 1), (.ip 0 0, -1)]), (1, [(.ip 0 0, 1), (.one, -1)])] 1 (fun _ _ => 0)) = (1, 0) := by
  decide +kernel

/-- a wrong multiplier is seen: with multiplier 2 on the second constraint a Gram term remains -/
example : (EDict.finishReconstruction
    (identFull [(.f 0, 1)] [(1, [(.f 0, 1), (.ip 0 0, -1)]), (2, [(.ip 0 0, 1), (.one, -1)])] 1 (fun _ _ => 0))).2 = 1 := by
  decide +kernel

end Pepit.C01
