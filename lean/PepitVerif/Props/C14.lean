import PepitModel.Solve
import Mathlib.Data.Real.Basic
import Mathlib.Tactic.Linarith
import Mathlib.Order.Bounds.Basic

/-!
# Property C14: dimension-reduction post-processing keeps the guarantee it started from

Two layers.
* data flow of `_solve_with_wrapper` (`Model/Solve`, compared call by call with the real method under
  a scripted wrapper, for every option combination): the multipliers, `PEP.residual` and the returned
  dual value are those of the **first** solve, for every heuristic.
* the optimisation argument, for an arbitrary problem and a solver that returns an optimal point of
  the problem it is given: the heuristic problem only *adds* the constraint `objective ≥ wc − tol`,
  hence its solutions are feasible for the original problem, lose at most `tol`, and for the trace
  heuristic do not increase the trace.
-/

namespace Pepit.C14

/-- **the certificate is the one of the original problem**: whatever heuristic is requested, the
multipliers are recovered once, after the first solve and before the heuristic touches the problem -/
theorem duals_from_first_solve (h : Heur) (m : Mode) : (solveFlow h m).dualsFrom = 1 := by
  cases h <;> rfl

theorem recover_once_after_first_solve (h : Heur) (m : Mode) :
    (solveFlow h m).calls.take 2 = [.solve 1, .recover 1] ∧
    ((solveFlow h m).calls.drop 2).all (fun c => match c with | .recover _ => false | _ => true) = true := by
  cases h with
  | none => exact ⟨rfl, rfl⟩
  | trace => exact ⟨rfl, rfl⟩
  | invalid => exact ⟨rfl, rfl⟩
  | logdet n =>
    refine ⟨rfl, ?_⟩
    have key : ∀ n k, (logdetRounds n k).all (fun c => match c with | .recover _ => false | _ => true) = true := by
      intro n; induction n with
      | zero => intro k; rfl
      | succ n ih => intro k; simp [logdetRounds, ih]
    simp [solveFlow, key]

/-- the primal instance is the one of the last solve (`N` rounds for `logdetN`) -/
theorem primal_from_last_solve (n : Nat) (m : Mode) :
    (solveFlow .none m).primalFrom = 1 ∧ (solveFlow .trace m).primalFrom = 2 ∧
    (solveFlow (.logdet n) m).primalFrom = n + 1 := ⟨rfl, rfl, rfl⟩

/-- number of solver calls: `1`, `2`, `N + 1` -/
theorem logdet_solves (n k : Nat) :
    ((logdetRounds n k).filter (fun c => match c with | .solve _ => true | _ => false)).length = n := by
  induction n generalizing k with
  | zero => rfl
  | succ n ih => simp [logdetRounds, ih]

/-- invalid option values are rejected -/
theorem invalid_rejected (m : Mode) (h : Heur) :
    (solveFlow .invalid m).raises = true ∧ (solveFlow h .invalid).raises = true := by
  constructor
  · rfl
  · cases h <;> simp [solveFlow]

/-! ## a solve of the dimension-reduction stage that fails -/

/-- without a failing solve the flow is `solveFlow` -/
theorem no_failure_is_solveFlow (h : Heur) (m : Mode) : solveFlowUpTo h m 0 = solveFlow h m := by
  simp [solveFlowUpTo]

/-- **a failing heuristic solve never changes the certificate**: the multipliers stay those of the first solve -/
theorem heuristic_failure_keeps_duals (h : Heur) (m : Mode) (failAt : Nat) :
    (solveFlowUpTo h m failAt).dualsFrom = 1 := by
  have h1 := duals_from_first_solve h m
  by_cases hc : 2 ≤ failAt ∧ failAt ≤ (solveFlow h m).primalFrom
  · simp [solveFlowUpTo, hc, h1]
  · simp [solveFlowUpTo, hc, h1]

/-- the instance kept is the one of the solve just before the failing one — a solve that succeeded, the first one at least -/
theorem heuristic_failure_instance (h : Heur) (m : Mode) (failAt : Nat)
    (h2 : 2 ≤ failAt) (hl : failAt ≤ (solveFlow h m).primalFrom) :
    (solveFlowUpTo h m failAt).primalFrom = failAt - 1 ∧ 1 ≤ (solveFlowUpTo h m failAt).primalFrom ∧
    (solveFlowUpTo h m failAt).primalFrom < failAt := by
  have : (solveFlowUpTo h m failAt).primalFrom = failAt - 1 := by simp [solveFlowUpTo, h2, hl]
  rw [this]; omega

theorem getLast_takeThrough (c : WCall) (l : List WCall) (hc : c ∈ l) : (takeThrough c l).getLast? = some c := by
  induction l with
  | nil => cases hc
  | cons x xs ih =>
    by_cases hx : x = c
    · simp [takeThrough, hx]
    · have hmem : c ∈ xs := by
        rcases List.mem_cons.mp hc with h | h
        · exact absurd h.symm hx
        · exact h
      have hne : takeThrough c xs ≠ [] := by
        intro h0; have := ih hmem; simp [h0] at this
      simp [takeThrough, hx, List.getLast?_cons_of_ne_nil hne, ih hmem]

theorem solve_mem_logdetRounds (n j k : Nat) (h1 : j ≤ k) (h2 : k < j + n) : WCall.solve k ∈ logdetRounds n j := by
  induction n generalizing j with
  | zero => omega
  | succ n ih =>
    by_cases hk : k = j
    · subst hk; simp [logdetRounds]
    · have := ih (j + 1) (by omega) (by omega)
      simp [logdetRounds, this]

/-- nothing is issued after the failing solve: it is the last call of the flow -/
theorem heuristic_failure_stops (h : Heur) (m : Mode) (failAt : Nat)
    (h2 : 2 ≤ failAt) (hl : failAt ≤ (solveFlow h m).primalFrom) :
    (solveFlowUpTo h m failAt).calls.getLast? = some (.solve failAt) := by
  have hc : (solveFlowUpTo h m failAt).calls = takeThrough (.solve failAt) (solveFlow h m).calls := by
    simp [solveFlowUpTo, h2, hl]
  rw [hc]
  apply getLast_takeThrough
  cases h with
  | none => simp [solveFlow] at hl; omega
  | invalid => simp [solveFlow] at hl; omega
  | trace =>
    have : failAt = 2 := by simp [solveFlow] at hl; omega
    subst this; simp [solveFlow]
  | logdet n =>
    have hl' : failAt ≤ n + 1 := by simpa [solveFlow] using hl
    have := solve_mem_logdetRounds n 2 failAt h2 (by omega)
    simp [solveFlow, this]

example : solveFlowUpTo (.logdet 3) .dual 3 =
    { calls := [.solve 1, .recover 1, .prepare, .heuristic, .solve 2, .heuristic, .solve 3], dualsFrom := 1, primalFrom := 2, raises := false } := by
  decide
example : solveFlowUpTo .trace .primal 2 =
    { calls := [.solve 1, .recover 1, .prepare, .heuristic, .solve 2], dualsFrom := 1, primalFrom := 1, raises := false } := by
  decide

/-! ## the optimisation argument -/

variable {X : Type}

/-- the problem the heuristic solves: the original constraints plus `objective ≥ wc − tol` -/
def HeurFeasible (feasible : X → Prop) (obj : X → ℝ) (wc tol : ℝ) (x : X) : Prop :=
  feasible x ∧ obj x ≥ wc - tol

/-- **the front-end does not touch the flow**: whichever back-end name is asked for, installed or not, licensed or not,
the calls, the solve the multipliers come from and the solve the instance comes from are those of `_solve_with_wrapper`
(the flow stream routes two programs in five through `PEP.solve` with every spelling of the names and an absent MOSEK) -/
theorem front_end_transparent (name : String) (installed licensed : String → Bool) (h : Heur) (m : Mode) :
    (solveFront name installed licensed h m).2 = solveFlow h m := rfl

/-- a back-end that is not installed, or whose licence check fails, is replaced by cvxpy; an installed and licensed one is kept -/
theorem fallback_is_cvxpy (name : String) (installed licensed : String → Bool)
    (h : installed name.toLower = false ∨ licensed name.toLower = false) :
    resolveWrapper name installed licensed = "cvxpy" := by
  unfold resolveWrapper
  rcases h with h | h
  · simp [h]
  · by_cases hi : installed name.toLower = true <;> simp [hi, h]

/-- **the returned instance still satisfies every original constraint** -/
theorem heuristic_feasible (feasible : X → Prop) (obj : X → ℝ) (wc tol : ℝ) (x : X)
    (h : HeurFeasible feasible obj wc tol x) : feasible x := h.1

/-- **the primal value stays within the stated tolerance of the optimum** -/
theorem primal_within_tol (feasible : X → Prop) (obj : X → ℝ) (wc tol : ℝ) (x : X)
    (h : HeurFeasible feasible obj wc tol x) : wc - tol ≤ obj x := h.2

/-- the first solution is feasible for the heuristic problem (so that problem is never infeasible) -/
theorem first_solution_feasible (feasible : X → Prop) (obj : X → ℝ) (tol : ℝ) (htol : 0 ≤ tol) (x₁ : X)
    (h₁ : feasible x₁) : HeurFeasible feasible obj (obj x₁) tol x₁ := ⟨h₁, by linarith⟩

/-- **trace heuristic: the trace does not increase** — `x₂` minimises `tr` over the heuristic
problem built from the value of `x₁` -/
theorem trace_nonincreasing (feasible : X → Prop) (obj tr : X → ℝ) (tol : ℝ) (htol : 0 ≤ tol) (x₁ x₂ : X)
    (h₁ : feasible x₁)
    (h₂ : ∀ y, HeurFeasible feasible obj (obj x₁) tol y → tr x₂ ≤ tr y) : tr x₂ ≤ tr x₁ :=
  h₂ x₁ (first_solution_feasible feasible obj tol htol x₁ h₁)

/-- the dual bound dominates the value of the returned instance too -/
theorem bound_still_valid (feasible : X → Prop) (obj : X → ℝ) (τ wc tol : ℝ) (x : X)
    (hτ : ∀ y, feasible y → obj y ≤ τ) (h : HeurFeasible feasible obj wc tol x) : obj x ≤ τ := hτ x h.1

/-- non-vacuity: on `X = ℝ`, maximise `x` over `x ≤ 1` then minimise `|x|`-like cost `x²` within `tol = 1/2` -/
example : HeurFeasible (fun x : ℝ => x ≤ 1) (fun x => x) 1 (1 / 2) (1 / 2) := by
  constructor <;> norm_num
example : solveFlow (.logdet 2) .dual =
    { calls := [.solve 1, .recover 1, .prepare, .heuristic, .solve 2, .heuristic, .solve 3],
      dualsFrom := 1, primalFrom := 3, raises := false } := by decide

end Pepit.C14

#print axioms Pepit.C14.recover_once_after_first_solve
#print axioms Pepit.C14.trace_nonincreasing
