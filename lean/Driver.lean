import PepitModel
open Pepit

/-! Line-protocol driver: one op per input line, one canonical output line per op. -/

structure Env where
  w : World := {}
  names : List (String × Nat) := []
  ev : EvalSt := {}
  aw : AW := {}
  anames : List (String × Nat) := []
  awOk : Bool := true     -- false once an op outside the mirrored fragment was used

def parseRat (s : String) : Option Rat :=
  match s.splitOn "/" with
  | [n] => n.toInt?.map (fun k => (k : Rat))
  | [n, d] => do let a ← n.toInt?; let b ← d.toNat?; if b == 0 then none else some ((a : Rat) / (b : Rat))
  | _ => none

def showRat (r : Rat) : String := if r.den == 1 then s!"{r.num}" else s!"{r.num}/{r.den}"

def insertSorted (x : String × String) : List (String × String) → List (String × String)
  | [] => [x]
  | y :: t => if x.1 < y.1 then x :: y :: t else y :: insertSorted x t

def canon (items : List (String × String)) : String :=
  let sorted := items.foldl (fun acc x => insertSorted x acc) []
  "{" ++ String.intercalate "," (sorted.map fun (k, v) => k ++ ":" ++ v) ++ "}"

def pad (n : Nat) : String := let s := toString n; String.ofList (List.replicate (6 - s.length) '0') ++ s

def showPDict (d : PDict) : String := canon ((Dict.prune d).map fun (k, c) => (pad k, showRat c))
def showEKey : EKey → String
  | .f i => "f" ++ pad i
  | .ip i j => "g" ++ pad i ++ "_" ++ pad j
  | .one => "one"
/-- expressions are compared after merging mirrored inner-product keys? No: keys are kept as written. -/
def showEDict (d : EDict) : String := canon ((Dict.prune d).map fun (k, c) => (showEKey k, showRat c))

def lookup (e : Env) (n : String) : Except String Nat :=
  match e.names.lookup n with | some h => .ok h | none => .error s!"unknown {n}"

def runM {α : Type} (e : Env) (m : M α) : Except String (α × Env) :=
  match m.run e.w with
  | .ok (a, w) => .ok (a, { e with w := w })
  | .error err => .error (match err with
      | .divZero => "ZeroDivisionError"
      | .assertion _ => "AssertionError"
      | .typeError _ => "TypeError"
      | .badRef => "badRef"
      | .unsupported m => "unsupported " ++ m)

def bind1 (e : Env) (n : String) (h : Nat) : Env := { e with names := (n, h) :: e.names }

def showCons (h : Nat) : M String := do
  let c ← getC h
  let ex ← getE c.e
  let nm := match c.name with | some n => n | none => "None"
  pure s!"{nm}|{if c.isEq then "eq" else "le"}|{showEDict ex.d}"

def showPsd (h : Nat) : M String := do
  let m ← getPsd h
  let mut rows : List String := []
  for r in m.entries do
    let mut cells : List String := []
    for eh in r do
      cells := cells ++ [showEDict (← getE eh).d]
    rows := rows ++ ["[" ++ String.intercalate ";" cells ++ "]"]
  pure s!"PSD{m.n}:{String.intercalate "" rows}"

def dumpFn (f : Nat) : M String := do
  let fr ← getF f
  let w ← get
  let dec := canon ((Dict.prune fr.decomp |>.filterMap fun (h, c) =>
    match w.funs[h]? with
    | some t => some (match t.leaf with | some k => pad k | none => "None", showRat c)
    | none => none))
  let mut parts : List String := []
  for t in fr.pts do
    let px ← getP t.x; let pg ← getP t.g; let ev ← getE t.v
    parts := parts ++ [showPDict px.d ++ "|" ++ showPDict pg.d ++ "|" ++ showEDict ev.d]
  pure s!"dec={dec} reuse={fr.reuse} nstat={fr.stat.length} pts=[{String.intercalate ";" parts}]"

def dumpClass (f : Nat) : M String := do
  let fr ← getF f
  let mut items : List String := []
  for c in fr.classCons do items := items ++ [← showCons c]
  for m in fr.classPsd do items := items ++ [← showPsd m]
  pure (String.intercalate " ## " items)

def dumpTables (f : Nat) : M String := do
  let fr ← getF f
  let mut out : List (String × String) := []
  for (name, tab) in fr.tables do
    let mut rows : List String := []
    for r in tab do
      let mut cells : List String := []
      for c in r do
        match c with
        | some h => cells := cells ++ [match (← getC h).name with | some n => n | none => "None"]
        | none => cells := cells ++ ["0"]
      rows := rows ++ ["[" ++ String.intercalate ";" cells ++ "]"]
    out := out ++ [(name, String.intercalate "" rows)]
  pure (canon out)

/-- `get_class_constraints_duals()`: the multiplier (scripted token) of the constraint stored at each cell; `0` cells stay `0` -/
def dumpDualTables (ev : EvalSt) (f : Nat) : M String := do
  let fr ← getF f
  let mut out : List (String × String) := []
  let mut failed := false
  for (name, tab) in fr.tables do
    let mut rows : List String := []
    for r in tab do
      let mut cells : List String := []
      for c in r do
        match c with
        | some h =>
          match evalDual ev h with
          | .ok v => cells := cells ++ [showRat v]
          | .error _ => failed := true
        | none => cells := cells ++ ["0"]
      rows := rows ++ ["[" ++ String.intercalate ";" cells ++ "]"]
    out := out ++ [(name, String.intercalate "" rows)]
  if failed then pure "err ValueError" else pure (canon out)

def dumpSent : M String := do
  let w ← get
  let mut items : List String := []
  for s in w.sent do
    match s with
    | .cons h => items := items ++ ["C:" ++ (← showCons h)]
    | .psd h => items := items ++ ["P:" ++ (← showPsd h)]
  pure (String.intercalate " ## " items)

def dumpPart (p : Nat) : M String := do
  let pr ← getPart p
  let mut items : List String := []
  for c in pr.cons do items := items ++ [← showCons c]
  let mut bl : List String := []
  for (x, bs) in pr.blocks do
    let mut cells : List String := []
    for b in bs do cells := cells ++ [showPDict (← getP b).d]
    bl := bl ++ [showPDict (← getP x).d ++ "->[" ++ String.intercalate ";" cells ++ "]"]
  pure s!"d={pr.d} blocks=[{String.intercalate " " bl}] cons=[{String.intercalate " ## " items}]"

def showSpec (sp : Pepit.Method.Spec) : String :=
  let sm := sp.samples.map fun t => showPDict t.1 ++ "|" ++ showPDict t.2.1 ++ "|" ++ showEDict t.2.2
  let ini := sp.init.map fun c => (if c.2 then "eq" else "le") ++ "|" ++ showEDict c.1
  let me := sp.metrics.map showEDict
  let sh (l : List (PDict × PDict × EDict)) := String.intercalate ";" (l.map fun t => showPDict t.1 ++ "|" ++ showPDict t.2.1 ++ "|" ++ showEDict t.2.2)
  let extra := (if sp.samples2.isEmpty then "" else s!" samples2=[{sh sp.samples2}]") ++ (if sp.samples3.isEmpty then "" else s!" samples3=[{sh sp.samples3}]")
  s!"samples=[{String.intercalate ";" sm}] init=[{String.intercalate ";" ini}] metrics=[{String.intercalate ";" me}]{extra}"

def parseRats (l : List String) : Option (List Rat) := l.mapM parseRat

def readMatrix (e : Env) (n : Nat) (toks : List String) : Except String (List (List Nat)) := do
  if toks.length ≠ n * n then throw "bad matrix"
  let hs ← toks.mapM (lookup e)
  pure ((List.range n).map fun i => (hs.drop (i * n)).take n)


def alookup (e : Env) (n : String) : Option Nat := e.anames.lookup n

def dumpAFn (aw : AW) (f : Nat) : String :=
  let fr := aw.getF f
  let leafCounter (i : Nat) : Nat := ((aw.funs.take i).filter (·.isLeaf)).length
  let dec := canon ((Dict.prune fr.decomp).map fun (h, c) => (pad (leafCounter h), showRat c))
  let parts := fr.pts.map fun t => showPDict t.x ++ "|" ++ showPDict t.g ++ "|" ++ showEDict t.v
  let nstat := (fr.pts.filter (fun t => (Dict.prune t.g).isEmpty)).length
  s!"dec={dec} reuse={fr.reuse} nstat={nstat} pts=[{String.intercalate ";" parts}]"

/-- mirror a function-layer op on the value-level machine -/
def mirror (e : Env) (toks : List String) (pre : World) : Env :=
  if !e.awOk then e else
  let ptDict (n : String) : Option PDict := do
    let h ← e.names.lookup n
    let p ← pre.pts[h]?
    pure p.d
  match toks with
  | "fn.decl" :: n :: cls :: _ =>
    if cls == "LinearOperator" || cls == "SmoothStronglyConvexQuadraticFunction" || cls == "BlockSmoothConvexFunction" then
      { e with awOk := false }
    else match e.names.lookup n with
      | some h => match e.w.funs[h]? with
        | some fr => let (aw, i) := e.aw.newLeafFun fr.reuse; { e with aw := aw, anames := (n, i) :: e.anames }
        | none => { e with awOk := false }
      | none => { e with awOk := false }
  | ["fn.lin", n, c1, a, c2, b] =>
    match parseRat c1, parseRat c2, alookup e a, alookup e b with
    | some r1, some r2, some ia, some ib =>
      let (aw, i) := e.aw.newComposite r1 ia r2 ib; { e with aw := aw, anames := (n, i) :: e.anames }
    | _, _, _, _ => { e with awOk := false }
  | ["fn.add", n, a, b] =>
    match alookup e a, alookup e b with
    | some ia, some ib =>
      let (aw, i) := e.aw.newComposite 1 ia 1 ib; { e with aw := aw, anames := (n, i) :: e.anames }
    | _, _ => { e with awOk := false }
  | ["fn.sub", n, a, b] =>
    match alookup e a, alookup e b with
    | some ia, some ib =>
      let (aw, i) := e.aw.newComposite 1 ia (-1) ib; { e with aw := aw, anames := (n, i) :: e.anames }
    | _, _ => { e with awOk := false }
  | ["fn.oracle", f, x, _, _] =>
    match alookup e f, ptDict x with
    | some i, some d => { e with aw := (oracleA e.aw i d).1 }
    | _, _ => { e with awOk := false }
  | ["fn.gradient", f, x, _] =>
    match alookup e f, ptDict x with
    | some i, some d => { e with aw := (oracleA e.aw i d).1 }
    | _, _ => { e with awOk := false }
  | ["fn.value", f, x, _] =>
    match alookup e f, ptDict x with
    | some i, some d => { e with aw := (valueA e.aw i d).1 }
    | _, _ => { e with awOk := false }
  | ["fn.stat", f, _, _] =>
    match alookup e f with
    | some i => { e with aw := (stationaryPointA e.aw i).1 }
    | none => { e with awOk := false }
  | ["fn.fixed", f, _] =>
    match alookup e f with
    | some i => { e with aw := (fixedPointA e.aw i).1 }
    | none => { e with awOk := false }
  | op :: _ =>
    -- leaf points created by other ops advance the point counter of the world; keep in step
    if op == "pt.leaf" || op == "pt.leafn" then { e with aw := { e.aw with nP := e.aw.nP + 1 } }
    else if op == "ex.leaf" then { e with aw := { e.aw with nE := e.aw.nE + 1 } }
    else if op.startsWith "step." || op == "fn.smul" || op == "fn.div" || op == "fn.stat3" || op == "fn.fixed2" || op == "fn.addpoint" || op == "part.block" || op == "class.set" || op == "solve.collect"
         || op == "solve.ok" || op == "solve.okp" || op == "solve.fail" then { e with awOk := false }
    else e
  | [] => e

/-- a dyadic rational with at most 26 significant bits (`_exact_double` of the harness): sums and products of two such
numbers are exact in binary64 -/
partial def oddPart (n : Nat) : Nat := if n == 0 then 0 else if n % 2 == 0 then oddPart (n / 2) else n
def ratExact26 (q : Rat) : Bool :=
  oddPart q.den == 1 && oddPart q.num.natAbs < 2 ^ 26 && q.den < 2 ^ 900 && q.num.natAbs < 2 ^ 900

/-- every coefficient of every point and expression ever allocated in this world is `ratExact26`: the float computation
of the implementation has not rounded so far (intermediate results that no `dump.*` line prints are included) -/
def worldExact (w : World) : Bool :=
  w.pts.all (fun p => p.d.all (fun kc => ratExact26 kc.2)) && w.exs.all (fun x => x.d.all (fun kc => ratExact26 kc.2))

def stepCore (e : Env) (line : String) : Env × String :=
  let toks := (line.trimAscii.toString.splitOn " ").filter (· ≠ "")
  let res : Except String (Env × String) := do
    match toks with
    | ["reset"] =>
      -- a fresh interpreter state; `nullP` / `nullE` stand for the module-level `null_point` / `null_expression`
      -- (empty combinations, shared by every model of a process: they must stay empty)
      let e0 : Env := {}
      let (hp, e1) ← runM e0 (mkP [])
      let (he, e2) ← runM e1 (mkE [])
      pure (bind1 (bind1 e2 "nullP" hp) "nullE" he, "ok")
    | "fn.decl" :: n :: cls :: reuse :: inf :: rest =>
      let some tag := ClassTag.ofString cls | throw "bad class"
      let (pstrs, part) := match rest.reverse with
        | last :: more => if last.startsWith "partition=" then (more.reverse, some (last.drop 10).toString) else (rest, none)
        | [] => ([], none)
      let some ps := parseRats pstrs | throw "bad rat"
      let (h, e) ← runM e (declareFunction tag ps (inf == "1") (reuse == "1"))
      let e ← match part with
        | some b => do
          let hb ← lookup e b
          let (_, e) ← runM e (do let f ← getF h; setF h { f with partition := some hb })
          pure e
        | none => pure e
      pure (bind1 e n h, "ok")
    | ["fn.adjoint", n, f] =>
      let hf ← lookup e f
      let (t, _) ← runM e (do match (← getF hf).adjoint with | some t => pure t | none => throw .badRef)
      pure (bind1 e n t, "ok")
    | ["fn.lin", n, c1, a, c2, b] =>
      let some r1 := parseRat c1 | throw "bad rat"
      let some r2 := parseRat c2 | throw "bad rat"
      let ha ← lookup e a; let hb ← lookup e b
      let (h, e) ← runM e (do let x ← fnSmul r1 ha; let y ← fnSmul r2 hb; fnAdd x y)
      pure (bind1 e n h, "ok")
    | ["fn.add", n, a, b] =>
      -- `a + b` written directly (no scalar multiples in between): the operands may be leaves, and may be the same object
      let ha ← lookup e a; let hb ← lookup e b
      let (h, e) ← runM e (fnAdd ha hb)
      pure (bind1 e n h, "ok")
    | ["fn.sub", n, a, b] =>
      let ha ← lookup e a; let hb ← lookup e b
      let (h, e) ← runM e (do let y ← fnSmul (-1) hb; fnAdd ha y)
      pure (bind1 e n h, "ok")
    | ["fn.setparam", f, is, v] =>
      -- the user changes a class parameter of an existing function (`f.L = 4.`): later class constraints use it
      let hf ← lookup e f
      let some i := is.toNat? | throw "bad index"
      let some q := parseRat v | throw "bad rat"
      let (_, e) ← runM e (do let fr ← getF hf; setF hf { fr with params := fr.params.set i q })
      pure (e, "ok")
    | ["fn.setv", f, p] =>
      let hf ← lookup e f; let hp ← lookup e p
      let (_, e) ← runM e (do let fr ← getF hf; setF hf { fr with vPoint := some hp })
      pure (e, "ok")
    | ["pt.leaf", n] => let (h, e) ← runM e (newLeafP); pure (bind1 e n h, "ok")
    | ["pt.leafn", n, nm] => let (h, e) ← runM e (newLeafP (some nm)); pure (bind1 e n h, "ok")
    | ["pt.lin", n, c1, a, c2, b] =>
      let some r1 := parseRat c1 | throw "bad rat"
      let some r2 := parseRat c2 | throw "bad rat"
      let ha ← lookup e a; let hb ← lookup e b
      let (h, e) ← runM e (do let x ← ptSmul r1 ha; let y ← ptSmul r2 hb; ptAdd x y)
      pure (bind1 e n h, "ok")
    | ["pt.sub", n, a, b] =>
      let ha ← lookup e a; let hb ← lookup e b
      let (h, e) ← runM e (ptSub ha hb); pure (bind1 e n h, "ok")
    | ["pt.smul", n, c1, a] =>
      let some r1 := parseRat c1 | throw "bad rat"
      let ha ← lookup e a
      let (h, e) ← runM e (ptSmul r1 ha); pure (bind1 e n h, "ok")
    | ["pt.div", n, a, c1] =>
      let some r1 := parseRat c1 | throw "bad rat"
      let ha ← lookup e a
      let (h, e) ← runM e (ptDiv ha r1); pure (bind1 e n h, "ok")
    | ["pt.add", n, a, b] =>
      let ha ← lookup e a; let hb ← lookup e b
      let (h, e) ← runM e (ptAdd ha hb); pure (bind1 e n h, "ok")
    -- augmented assignments (`x = a; x += b`): Python falls back to the binary operator, the result is a
    -- new object and the aliased operand is untouched
    | ["pt.iadd", n, a, b] =>
      let ha ← lookup e a; let hb ← lookup e b
      let (h, e) ← runM e (ptAdd ha hb); pure (bind1 e n h, "ok")
    | ["pt.isub", n, a, b] =>
      let ha ← lookup e a; let hb ← lookup e b
      let (h, e) ← runM e (ptSub ha hb); pure (bind1 e n h, "ok")
    | ["ex.iadd", n, a, b] =>
      let ha ← lookup e a; let hb ← lookup e b
      let (h, e) ← runM e (exAdd ha hb); pure (bind1 e n h, "ok")
    | ["ex.isub", n, a, b] =>
      let ha ← lookup e a; let hb ← lookup e b
      let (h, e) ← runM e (exSub ha hb); pure (bind1 e n h, "ok")
    | ["ex.iaddc", n, a, c1] =>
      let some r1 := parseRat c1 | throw "bad rat"
      let ha ← lookup e a
      let (h, e) ← runM e (exAddConst ha r1); pure (bind1 e n h, "ok")
    | ["ex.imul", n, a, c1] =>
      let some r1 := parseRat c1 | throw "bad rat"
      let ha ← lookup e a
      let (h, e) ← runM e (exSmul r1 ha); pure (bind1 e n h, "ok")
    | ["pt.imul", n, a, c1] =>
      let some r1 := parseRat c1 | throw "bad rat"
      let ha ← lookup e a
      let (h, e) ← runM e (ptSmul r1 ha); pure (bind1 e n h, "ok")
    | ["pt.neg", n, a] =>
      let ha ← lookup e a
      let (h, e) ← runM e (ptNeg ha); pure (bind1 e n h, "ok")
    | ["ex.add", n, a, b] =>
      let ha ← lookup e a; let hb ← lookup e b
      let (h, e) ← runM e (exAdd ha hb); pure (bind1 e n h, "ok")
    | ["ex.neg", n, a] =>
      let ha ← lookup e a
      let (h, e) ← runM e (exNeg ha); pure (bind1 e n h, "ok")
    | ["ex.smul", n, c1, a] =>
      let some r1 := parseRat c1 | throw "bad rat"
      let ha ← lookup e a
      let (h, e) ← runM e (exSmul r1 ha); pure (bind1 e n h, "ok")
    | ["ex.sq", n, a] =>
      let ha ← lookup e a
      let (h, e) ← runM e (ptIp ha ha); pure (bind1 e n h, "ok")
    | ["ex.subc", n, a, c1] =>
      let some r1 := parseRat c1 | throw "bad rat"
      let ha ← lookup e a
      let (h, e) ← runM e (exSubConst ha r1); pure (bind1 e n h, "ok")
    | ["ex.rsubc", n, c1, a] =>
      let some r1 := parseRat c1 | throw "bad rat"
      let ha ← lookup e a
      let (h, e) ← runM e (do let t ← exSubConst ha r1; exNeg t); pure (bind1 e n h, "ok")
    | ["ex.leaf", n] => let (h, e) ← runM e (newLeafE); pure (bind1 e n h, "ok")
    | ["ex.ip", n, a, b] =>
      let ha ← lookup e a; let hb ← lookup e b
      let (h, e) ← runM e (ptIp ha hb); pure (bind1 e n h, "ok")
    | ["ex.lin", n, c1, a, c2, b] =>
      let some r1 := parseRat c1 | throw "bad rat"
      let some r2 := parseRat c2 | throw "bad rat"
      let ha ← lookup e a; let hb ← lookup e b
      let (h, e) ← runM e (do let x ← exSmul r1 ha; let y ← exSmul r2 hb; exAdd x y)
      pure (bind1 e n h, "ok")
    | ["ex.sub", n, a, b] =>
      let ha ← lookup e a; let hb ← lookup e b
      let (h, e) ← runM e (exSub ha hb); pure (bind1 e n h, "ok")
    | ["ex.addc", n, a, c1] =>
      let some r1 := parseRat c1 | throw "bad rat"
      let ha ← lookup e a
      let (h, e) ← runM e (exAddConst ha r1); pure (bind1 e n h, "ok")
    | ["ex.div", n, a, c1] =>
      let some r1 := parseRat c1 | throw "bad rat"
      let ha ← lookup e a
      let (h, e) ← runM e (exDiv ha r1); pure (bind1 e n h, "ok")
    | ["fn.oracle", f, x, gn, vn] =>
      let hf ← lookup e f; let hx ← lookup e x
      let ((g, v), e) ← runM e (oracle hf hx)
      pure (bind1 (bind1 e gn g) vn v, "ok")
    | ["fn.stat", f, xn, vn] =>
      let hf ← lookup e f
      let ((x, _, v), e) ← runM e (stationaryPoint hf)
      pure (bind1 (bind1 e xn x) vn v, "ok")
    | ["fn.stat3", f, xn, gn, vn] =>
      let hf ← lookup e f
      let ((x, g, v), e) ← runM e (stationaryPoint hf)
      pure (bind1 (bind1 (bind1 e xn x) gn g) vn v, "ok")
    | ["fn.fixed2", f, xn, vn] =>
      let hf ← lookup e f
      let ((x, v), e) ← runM e (fixedPoint hf)
      pure (bind1 (bind1 e xn x) vn v, "ok")
    | ["fn.smul", n, c, a] =>
      -- `c * f` / `f * c` / `-f` written directly
      let some r := parseRat c | throw "bad rat"
      let ha ← lookup e a
      let (h, e) ← runM e (fnSmul r ha)
      pure (bind1 e n h, "ok")
    | ["fn.div", n, a, c] =>
      let some r := parseRat c | throw "bad rat"
      let ha ← lookup e a
      if r == 0 then pure (e, "err ZeroDivisionError") else
      let (h, e) ← runM e (fnSmul (1 / r) ha)
      pure (bind1 e n h, "ok")
    | "spec.gdc" :: _ :: g :: ns :: _ =>
      let some γ := parseRat g | throw "bad rat"
      let some n := ns.toNat? | throw "bad n"
      pure (e, showSpec (Pepit.Method.gdc γ n))
    | "spec.pg" :: _ :: _ :: _ :: g :: ns :: _ =>
      let some γ := parseRat g | throw "bad rat"
      let some n := ns.toNat? | throw "bad n"
      pure (e, showSpec (Pepit.Method.pg γ n))
    | "spec.gfsc" :: _ => pure (e, showSpec Pepit.Method.gfsc)
    | "spec.agfc" :: _ :: ts :: _ =>
      let some t := parseRat ts | throw "bad rat"
      pure (e, showSpec (Pepit.Method.agfc t))
    | "spec.gfc" :: _ :: ts :: _ =>
      let some t := parseRat ts | throw "bad rat"
      pure (e, showSpec (Pepit.Method.gfc t))
    | "spec.gdl2" :: _ :: l :: g :: ns :: _ =>
      let some L := parseRat l | throw "bad rat"
      let some γ := parseRat g | throw "bad rat"
      let some n := ns.toNat? | throw "bad n"
      pure (e, showSpec (Pepit.Method.gdl2 L γ n))
    | "spec.polyakf" :: _ :: l :: g :: _ =>
      let some L := parseRat l | throw "bad rat"
      let some γ := parseRat g | throw "bad rat"
      pure (e, showSpec (Pepit.Method.polyakf L γ))
    | "spec.polyakd" :: _ :: g :: _ =>
      let some γ := parseRat g | throw "bad rat"
      pure (e, showSpec (Pepit.Method.polyakd γ))
    | "spec.gdl1" :: _ :: l :: g :: ns :: _ =>
      let some L := parseRat l | throw "bad rat"
      let some γ := parseRat g | throw "bad rat"
      let some n := ns.toNat? | throw "bad n"
      pure (e, showSpec (Pepit.Method.gdl1 L γ n))
    | "spec.gd" :: _ :: g :: ns :: _ =>
      let some γ := parseRat g | throw "bad rat"
      let some n := ns.toNat? | throw "bad n"
      pure (e, showSpec (Pepit.Method.gd γ n))
    | "spec.ppm" :: _ :: g :: ns :: _ =>
      let some γ := parseRat g | throw "bad rat"
      let some n := ns.toNat? | throw "bad n"
      pure (e, showSpec (Pepit.Method.ppm γ n))
    | "spec.subg" :: _ :: g :: ns :: _ =>
      let some γ := parseRat g | throw "bad rat"
      let some n := ns.toNat? | throw "bad n"
      pure (e, showSpec (Pepit.Method.subg γ n))
    | "note" :: _ => pure (e, "ok")
    | ["probe.exact"] => pure (e, if worldExact e.w then "probe exact" else "probe inexact")
    | "trace.error" :: _ => pure (e, "ok no-error-expected")
    | ["expect.sent", _] =>
      -- the implementation side compares the replayed solver input with the one the example's own run produced
      pure (e, "ok same")
    | ["fn.fixed", f, xn] =>
      let hf ← lookup e f
      let ((x, _), e) ← runM e (fixedPoint hf)
      pure (bind1 e xn x, "ok")
    | ["fn.addpoint", f, x, g, v] =>
      let hf ← lookup e f; let hx ← lookup e x; let hg ← lookup e g; let hv ← lookup e v
      let (_, e) ← runM e (addPoint hf (Triple.mk3 hx hg hv))
      pure (e, "ok")
    | ["fn.addcons", f, c] =>
      let hf ← lookup e f; let hc ← lookup e c
      let (_, e) ← runM e (do let fr ← getF hf; setF hf { fr with cons := fr.cons ++ [hc] })
      pure (e, "ok")
    | "fn.psd" :: f :: ns :: cells =>
      let hf ← lookup e f
      let some n := ns.toNat? | throw "bad n"
      let rows ← readMatrix e n cells
      let (_, e) ← runM e (do let m ← mkPsd rows; let fr ← getF hf; setF hf { fr with psd := fr.psd ++ [m] })
      pure (e, "ok")
    | ["pep.addcons", c] =>
      let hc ← lookup e c
      let (_, e) ← runM e (modify fun w => { w with pepCons := w.pepCons ++ [hc] })
      pure (e, "ok")
    | ["pep.metric", x] =>
      let hx ← lookup e x
      let (_, e) ← runM e (modify fun w => { w with pepMetrics := w.pepMetrics ++ [hx] })
      pure (e, "ok")
    | "pep.setmetrics" :: xs =>
      -- `problem.list_of_performance_metrics = [...]`: the list is replaced
      let hs ← xs.mapM (lookup e)
      let (_, e) ← runM e (modify fun w => { w with pepMetrics := hs })
      pure (e, "ok")
    | ["fn.setname", f, nm] =>
      let hf ← lookup e f
      let (_, e) ← runM e (do let fr ← getF hf; setF hf { fr with name := some nm })
      pure (e, "ok")
    | "pep.psd" :: ns :: cells =>
      let some n := ns.toNat? | throw "bad n"
      let rows ← readMatrix e n cells
      let (_, e) ← runM e (do let m ← mkPsd rows; modify fun w => { w with pepPsd := w.pepPsd ++ [m] })
      pure (e, "ok")
    | "psd.new" :: name :: ns :: cells =>
      -- a held PSDMatrix: cells are expression names or `#c` python scalars (stored as constant expressions)
      let some n := ns.toNat? | throw "bad n"
      if cells.length ≠ n * n then throw "bad matrix"
      -- a matrix of python scalars only becomes a numeric ndarray whose entries are numpy scalars: `_store` rejects them
      -- (given as a list of lists; an ndarray of objects keeps python scalars).  The counter is taken before `_store` raises.
      if cells.all (·.startsWith "#") && !(name.startsWith "ma") then
        let (_, e) ← runM e (modify fun w => { w with nPsd := w.nPsd + 1 })
        return (e, "err TypeError")
      let mut e := e
      let mut hs : List Nat := []
      for c in cells do
        if c.startsWith "#" then
          let some q := parseRat (c.drop 1).toString | throw "bad scalar"
          let (h, e') ← runM e (mkE [(EKey.one, q)])
          e := e'; hs := hs ++ [h]
        else
          hs := hs ++ [← lookup e c]
      let rows := (List.range n).map fun i => (hs.drop (i * n)).take n
      let (m, e') ← runM e (mkPsd rows)
      pure (bind1 e' name m, "ok")
    | ["dump.psd", m] => let hm ← lookup e m; let (s, _) ← runM e (showPsd hm); pure (e, s)
    | ["pep.addpsd", m] =>
      let hm ← lookup e m
      let (_, e) ← runM e (modify fun w => { w with pepPsd := w.pepPsd ++ [hm] })
      pure (e, "ok")
    | ["fn.addpsd", f, m] =>
      let hf ← lookup e f; let hm ← lookup e m
      let (_, e) ← runM e (do let fr ← getF hf; setF hf { fr with psd := fr.psd ++ [hm] })
      pure (e, "ok")
    | ["eval.psd", m] =>
      let hm ← lookup e m
      match evalPsd e.w e.ev hm with
      | .ok rows => pure (e, "ok " ++ String.intercalate ";" (rows.map fun r => String.intercalate "," (r.map showRat)))
      | .error _ => pure (e, "err ValueError")
    | ["eval.psddual", m] =>
      let hm ← lookup e m
      match evalPsdDual e.ev hm with
      | .ok v => pure (e, "ok " ++ showRat v)
      | .error _ => pure (e, "err ValueError")
    | ["part.new", n, ds] =>
      -- `BlockPartition(d=...)` called directly: same registration as `PEP.declare_block_partition`
      let some d := ds.toNat? | throw "bad d"
      let (h, e) ← runM e (declarePartition d)
      pure (bind1 e n h, "ok")
    | ["part.decl", n, ds] =>
      let some d := ds.toNat? | throw "bad d"
      let (h, e) ← runM e (declarePartition d)
      pure (bind1 e n h, "ok")
    | ["part.block", n, b, x, ks] =>
      let hb ← lookup e b; let hx ← lookup e x
      let some k := ks.toNat? | throw "bad k"
      let (h, e) ← runM e (getBlock hb hx k)
      pure (bind1 e n h, "ok")
    | ["part.addcons", b, c] =>
      -- a user constraint attached to the partition itself (`BlockPartition.add_constraint`)
      let hb ← lookup e b; let hc ← lookup e c
      let (_, e) ← runM e (do let pr ← getPart hb; setPart hb { pr with cons := pr.cons ++ [hc] })
      pure (e, "ok")
    | ["step.prox", x0, f, g, xn, gn, fnn] =>
      let hx ← lookup e x0; let hf ← lookup e f
      let some r := parseRat g | throw "bad rat"
      let ((x, gx, fx), e) ← runM e (proximalStep hx hf r)
      pure (bind1 (bind1 (bind1 e xn x) gn gx) fnn fx, "ok")
    | ["step.inexgrad", x0, f, g, ep, rel, xn, dn, fnn] =>
      let hx ← lookup e x0; let hf ← lookup e f
      let some r := parseRat g | throw "bad rat"
      let some r2 := parseRat ep | throw "bad rat"
      let ((x, dx, fx), e) ← runM e (inexactGradientStep hx hf r r2 (rel == "1"))
      pure (bind1 (bind1 (bind1 e xn x) dn dx) fnn fx, "ok")
    | "step.els" :: x0 :: f :: xn :: gn :: fnn :: dirs =>
      let hx ← lookup e x0; let hf ← lookup e f
      let hd ← dirs.mapM (lookup e)
      let ((x, gx, fx), e) ← runM e (exactLinesearchStep hx hf hd)
      pure (bind1 (bind1 (bind1 e xn x) gn gx) fnn fx, "ok")
    | ["step.linopt", dir, ind, xn, gn, fnn] =>
      let hd ← lookup e dir; let hf ← lookup e ind
      let ((x, gx, fx), e) ← runM e (linearOptimizationStep hd hf)
      pure (bind1 (bind1 (bind1 e xn x) gn gx) fnn fx, "ok")
    | ["step.breggrad", gx0, sx0, h, g, xn, sn, hn] =>
      let hg ← lookup e gx0; let hs ← lookup e sx0; let hh ← lookup e h
      let some r := parseRat g | throw "bad rat"
      let ((x, sx, hx), e) ← runM e (bregmanGradientStep hg hs hh r)
      pure (bind1 (bind1 (bind1 e xn x) sn sx) hn hx, "ok")
    | ["step.bregprox", sx0, h, f, g, xn, sn, hn, gn, fnn] =>
      let hs ← lookup e sx0; let hh ← lookup e h; let hf ← lookup e f
      let some r := parseRat g | throw "bad rat"
      let ((x, sx, hx, gx, fx), e) ← runM e (bregmanProximalStep hs hh hf r)
      pure (bind1 (bind1 (bind1 (bind1 (bind1 e xn x) sn sx) hn hx) gn gx) fnn fx, "ok")
    | ["step.epssub", x0, f, g, xn, gn, fnn, en] =>
      let hx ← lookup e x0; let hf ← lookup e f
      let some r := parseRat g | throw "bad rat"
      let ((x, g0, f0, ep), e) ← runM e (epsilonSubgradientStep hx hf r)
      pure (bind1 (bind1 (bind1 (bind1 e xn x) gn g0) fnn f0) en ep, "ok")
    | ["step.inexprox", x0, f, g, opt, xn, gn, fnn, wn, vn, fwn, en] =>
      let hx ← lookup e x0; let hf ← lookup e f
      let some r := parseRat g | throw "bad rat"
      let some o := opt.toNat? | throw "bad opt"
      let ((x, gx, fx, w, v, fw, ep), e) ← runM e (inexactProximalStep hx hf r o)
      pure (bind1 (bind1 (bind1 (bind1 (bind1 (bind1 (bind1 e xn x) gn gx) fnn fx) wn w) vn v) fwn fw) en ep, "ok")
    | ["dump.fcons", f] =>
      let hf ← lookup e f
      let (s, _) ← runM e (do
        let fr ← getF hf
        let mut items : List String := []
        for c in fr.cons do items := items ++ [← showCons c]
        pure (String.intercalate " ## " items))
      pure (e, s)
    | ["dump.mosekduals"] =>
      -- `MosekWrapper._recover_dual_values` on a scripted solution (row r carries 7000 + r, matrix variable j carries 8000 + j):
      -- what every sent item must receive is `Mosek.mspec` (theorem `C11.mrecover_spec`)
      let (calls, _) ← runM e mosekEmit
      match calls with
      | .error _ => pure (e, "MOSEK-ERROR")
      | .ok _ =>
        let (items, _) ← runM e cvxItems
        let ds := mspec (fun r => 7000 + r) (fun b => 8000 + b) 0 1 items
        -- the multiplier of a 0 x 0 LMI (a class LMI over no sample) is an empty array
        let toks := (items.zip ds).map fun (it, d) => match it with
          | .psd _ 0 => "empty"
          | _ => toString d
        pure (e, "duals=" ++ String.intercalate "," ("8000" :: toks))
    | ["dump.task"] =>
      let (calls, _) ← runM e mosekEmit
      let showTrips (l : List Trip) : String :=
        canon (l.map fun t => (pad t.i ++ "_" ++ pad t.j, showRat t.val))
      let showF (l : List (Nat × Coef)) : String := canon (l.map fun (i, c) => (pad i, showRat c))
      let showCall : TaskCall → String
        | .appendbarvars d => s!"barvar({d})"
        | .appendvars n => s!"vars({n})"
        | .putvarboundFree i => s!"free({i})"
        | .appendcons => "con"
        | .symmat d l => s!"sym({d},{showTrips l})"
        | .putbaraij r b i => s!"baraij({r},{b},{i})"
        | .putaijlist r l => if l.isEmpty then "aij(_,{})" else s!"aij({r},{showF l})"
        | .putconbound r (.up u) => s!"bound({r},up,{showRat u})"
        | .putconbound r (.fx v) => s!"bound({r},fx,{showRat v})"
        | .putclist l => s!"c({showF l})"
        | .maximize => "maximize"
      match calls with
      | .ok cs => pure (e, String.intercalate " " (cs.map showCall))
      | .error msg => pure (e, "MOSEK-ERROR " ++ msg)
    | ["dump.heur", ws] =>
      let parseRow (r : String) : Option (List Rat) := if r.isEmpty then some [] else (r.splitOn ",").mapM parseRat
      let some W := ((ws.drop 2).toString.splitOn ";").mapM parseRow | throw "bad W"
      let trips := mosekHeuristic W
      pure (e, "heur " ++ canon (trips.map fun t => (pad t.i ++ "_" ++ pad t.j, showRat t.val)))
    | ["dump.dense"] =>
      -- dense data of every scalar constraint sent (entries listed sparsely, symmetrised)
      let (s, _) ← runM e (do
        let w ← get
        let mut items : List String := []
        for snt in w.sent do
          match snt with
          | .cons h =>
            let c ← getC h
            let ex ← getE c.e
            let d := match ex.leaf with
              | some k => ({ G := fun _ _ => 0, F := fun i => if i = k then 1 else 0, c := 0 } : DenseW)
              | none => toDense ex.d
            let mut g : List (String × String) := []
            -- `d.G i j = 0` unless `i` and `j` both occur in an inner-product key: only those rows / columns are visited
            let idxs : List Nat := ((ex.d.filterMap (fun kc => match kc.1 with | .ip i j => some [i, j] | _ => none)).flatten.eraseDups).mergeSort
            for i in idxs do
              for j in idxs do
                if i < w.nP && j < w.nP && d.G i j != (0 : Coef) then g := g ++ [(pad i ++ "_" ++ pad j, showRat (d.G i j))]
            let mut f : List (String × String) := []
            for i in List.range w.nE do
              if d.F i != (0 : Coef) then f := f ++ [(pad i, showRat (d.F i))]
            items := items ++ [canon g ++ canon f ++ showRat d.c]
          | .psd _ => pure ()
        pure (String.intercalate " " items))
      pure (e, s)
    | ["solve.ok", gs, fs] =>
      let (_, e) ← runM e collect
      let parseRow (r : String) : Option (List Rat) := if r.isEmpty then some [] else (r.splitOn ",").mapM parseRat
      let some G := ((gs.drop 2).toString.splitOn ";").mapM parseRow | throw "bad G"
      let some F := parseRow (fs.drop 2).toString | throw "bad F"
      let sol : Solution := { G := G, F := F, nP := e.w.nP, nE := e.w.nE }
      let ev := (e.ev.afterSolve e.w sol).cacheSent e.w
      pure ({ e with ev := ev }, "ok " ++ showRat (scriptedDualObjective e.w))
    | ["solve.okp", gs, fs] =>
      -- `return_primal_or_dual="primal"`: same assignments (values, multipliers, caches); the value
      -- returned is the objective of the solver's solution
      let (_, e) ← runM e collect
      let parseRow (r : String) : Option (List Rat) := if r.isEmpty then some [] else (r.splitOn ",").mapM parseRat
      let some G := ((gs.drop 2).toString.splitOn ";").mapM parseRow | throw "bad G"
      let some F := parseRow (fs.drop 2).toString | throw "bad F"
      let sol : Solution := { G := G, F := F, nP := e.w.nP, nE := e.w.nE }
      let ev := (e.ev.afterSolve e.w sol).cacheSent e.w
      let objIdx : Nat := match e.w.objective with
        | some h => (match e.w.exs[h]? with | some o => o.leaf.getD 0 | none => 0)
        | none => 0
      pure ({ e with ev := ev }, "ok " ++ showRat (F.getD objIdx 0))
    | ["solve.fail"] => let (_, e) ← runM e collect; pure (e, "ok")
    | ["eval.ex", x] =>
      let hx ← lookup e x
      match evalExpr e.w e.ev hx with
      | .ok (v, ev) => pure ({ e with ev := ev }, "ok " ++ showRat v)
      | .error .valueError => pure (e, "err ValueError")
      | .error .typeError => pure (e, "err TypeError")
    | ["eval.cons", c] =>
      let hc ← lookup e c
      match evalCons e.w e.ev hc with
      | .ok (v, ev) => pure ({ e with ev := ev }, "ok " ++ showRat v)
      | .error .valueError => pure (e, "err ValueError")
      | .error .typeError => pure (e, "err TypeError")
    | ["eval.dual", c] =>
      let hc ← lookup e c
      match evalDual e.ev hc with
      | .ok v => pure (e, "ok " ++ showRat v)
      | .error _ => pure (e, "err ValueError")
    | ["eval.ptn", p] =>
      let hp ← lookup e p
      match evalPointNormSq e.w e.ev hp with
      | .ok (v, ev) => pure ({ e with ev := ev }, "ok " ++ showRat v)
      | .error _ => pure (e, "err ValueError")
    | "flow" :: hs :: ms :: rest =>
      let failAt : Nat := match rest with
        | [t] => if t.startsWith "failat=" then ((t.drop 7).toString.toNat?).getD 0 else 0
        | _ => 0
      let h : Heur := if hs == "none" then .none else if hs == "trace" then .trace
        else if hs.startsWith "logdet" then (match (hs.drop 6).toString.toNat? with | some n => .logdet n | none => .invalid)
        else .invalid
      let m : Mode := if ms == "dual" then .dual else if ms == "primal" then .primal else .invalid
      let fl := solveFlowUpTo h m failAt
      let showCall : WCall → String
        | .solve k => s!"solve{k}" | .recover k => s!"recover{k}" | .prepare => "prepare" | .heuristic => "heuristic"
      pure (e, s!"calls={String.intercalate "," (fl.calls.map showCall)} duals={fl.dualsFrom} primal={fl.primalFrom} raises={fl.raises}")
    | "ref" :: name :: ps =>
      let some rs := parseRats ps | throw "bad rat"
      let fs : List Float := rs.map (fun r => Float.ofInt r.num / Float.ofNat r.den)
      match Pepit.Ref.find name with
      | none => pure (e, "ref unknown")
      | some en =>
        if fs.length != en.params.length then pure (e, "ref arity")
        else if !en.inDomain fs then pure (e, "ref outside-domain")
        else pure (e, s!"ref {((en.value fs) * 1000000000000).round.toInt64}")
    | ["flowfail"] =>
      let fl := failedFlow
      pure (e, s!"calls=solve1 duals={fl.dualsFrom} primal={fl.primalFrom} raises={fl.raises}")
    | ["class.set", f] =>
      let hf ← lookup e f
      let (_, e) ← runM e (setClassConstraints hf)
      pure (e, "ok")
    | ["solve.collect"] => let (_, e) ← runM e collect; pure (e, "ok")
    | ["dump.fn", f] => let hf ← lookup e f; let (s, _) ← runM e (dumpFn hf); pure (e, s)
    | ["check.afn", f] =>
      let hf ← lookup e f
      let (s, _) ← runM e (dumpFn hf)
      if !e.awOk then pure (e, "skipped")
      else match alookup e f with
        | some i => let a := dumpAFn e.aw i; pure (e, if a == s then "same" else "DIFF world=" ++ s ++ " || avalue=" ++ a)
        | none => pure (e, "skipped")
    | ["dump.class", f] => let hf ← lookup e f; let (s, _) ← runM e (dumpClass hf); pure (e, s)
    | ["dump.tables", f] => let hf ← lookup e f; let (s, _) ← runM e (dumpTables hf); pure (e, s)
    | ["dump.dualtables", f] => let hf ← lookup e f; let (s, _) ← runM e (dumpDualTables e.ev hf); pure (e, s)
    | ["dump.part", b] => let hb ← lookup e b; let (s, _) ← runM e (dumpPart hb); pure (e, s)
    | ["dump.cvx", gs, fs, ms] =>
      -- the real CvxpyWrapper's `_list_of_solver_constraints` (kinds, and residual of every equality / inequality at
      -- the given values of G, F and of the auxiliary LMI variables) and `_recover_dual_values` on tagged duals,
      -- against `Cvx.emit` / `Cvx.recover`
      let parseRow (r : String) : Option (List Rat) := if r.isEmpty then some [] else (r.splitOn ",").mapM parseRat
      let some G := ((gs.drop 2).toString.splitOn ";").mapM parseRow | throw "bad G"
      let some F := parseRow (fs.drop 2).toString | throw "bad F"
      let mstr := (ms.drop 2).toString
      let some Ms := (if mstr.isEmpty then some [] else (mstr.splitOn "|").mapM (fun m => (m.splitOn ";").mapM parseRow)) | throw "bad M"
      let sol : Solution := { G := G, F := F, nP := e.w.nP, nE := e.w.nE }
      let w := e.w
      -- items in sending order; LMIs numbered in sending order
      let items : List Item := (List.range w.sent.length).filterMap (fun k =>
        match (w.sent[k]? : Option Sent) with
        | some (Sent.cons _) => some (Item.cons k)
        | some (Sent.psd h) => (w.psds[h]?).map (fun m => Item.psd k m.n)
        | none => none)
      let lmiIndex (k : Nat) : Nat := ((List.range k).filter (fun k' => match (w.sent[k']? : Option Sent) with | some (Sent.psd _) => true | _ => false)).length
      let valOf (eh : Nat) : Option Rat := (w.exs[eh]?).bind (fun o => evalGFRat sol o.d)
      let cons := emit items
      let mut kinds : List String := []
      let mut vals : List String := []
      let mut idx := 0
      for c in cons do
        match c with
        | .gram => kinds := kinds ++ [s!"P{w.nP}"]
        | .scalar k =>
          match (w.sent[k]? : Option Sent) with
          | some (Sent.cons h) =>
            match w.cons[h]? with
            | some co =>
              kinds := kinds ++ [if co.isEq then "E" else "L"]
              vals := vals ++ [pad idx ++ ":" ++ (match valOf co.e with | some v => showRat v | none => "none")]
            | none => throw "bad cons"
          | _ => throw "bad item"
        | .psdMain k =>
          match (w.sent[k]? : Option Sent) with
          | some (Sent.psd h) => kinds := kinds ++ [s!"P{((w.psds[h]?).map (·.n)).getD 0}"]
          | _ => throw "bad item"
        | .psdEntry k i j =>
          match (w.sent[k]? : Option Sent) with
          | some (Sent.psd h) =>
            let some m := w.psds[h]? | throw "bad psd"
            let eh := (m.entries.getD i []).getD j 0
            let mv : Rat := ((Ms.getD (lmiIndex k) []).getD i []).getD j 0
            kinds := kinds ++ ["E"]
            vals := vals ++ [pad idx ++ ":" ++ (match valOf eh with | some v => showRat (mv - v) | none => "none")]
          | _ => throw "bad item"
        idx := idx + 1
      -- tagged duals: solver constraint number `i` carries the token `5000 + i`
      let tokens : List Nat := (List.range cons.length).map (· + 5000)
      let rec? := recover tokens items
      -- a 0 x 0 multiplier carries no token
      let sizes : List Nat := w.nP :: items.map (fun it => match it with | .cons _ => 1 | .psd _ n => n)
      let dualStr := match rec? with
        | some ds => String.intercalate "," ((ds.zip sizes).map fun (d, sz) => if sz == 0 then "empty" else toString d)
        | none => "none"
      pure (e, "kinds=" ++ String.intercalate "," kinds ++ " vals={" ++ String.intercalate "," vals ++ "} duals=" ++ dualStr)
    | ["dump.cvxheur", gs, fs, wcs, tols, wss] =>
      -- contract of the dimension-reduction interface of the cvxpy back-end: one added constraint `objective >= wc - tol`
      -- (printed as the residual `(wc - tol) - objective` at the given F), then `Minimize <W, G>` for each given W, under
      -- all the constraints
      let parseRow (r : String) : Option (List Rat) := if r.isEmpty then some [] else (r.splitOn ",").mapM parseRat
      let some G := ((gs.drop 2).toString.splitOn ";").mapM parseRow | throw "bad G"
      let some F := parseRow (fs.drop 2).toString | throw "bad F"
      let some wc := parseRat (wcs.drop 3).toString | throw "bad wc"
      let some tol := parseRat (tols.drop 4).toString | throw "bad tol"
      let some Ws := ((wss.drop 2).toString.splitOn "|").mapM (fun m => (m.splitOn ";").mapM parseRow) | throw "bad W"
      let w := e.w
      let objIdx : Nat := match w.objective with
        | some h => (match w.exs[h]? with | some o => o.leaf.getD 0 | none => 0)
        | none => 0
      let items : List Item := (List.range w.sent.length).filterMap (fun k =>
        match (w.sent[k]? : Option Sent) with
        | some (Sent.cons _) => some (Item.cons k)
        | some (Sent.psd h) => (w.psds[h]?).map (fun m => Item.psd k m.n)
        | none => none)
      let ncons := (emit items).length + 1
      let prep := showRat ((wc - tol) - F.getD objIdx 0)
      let dotW (W : List (List Rat)) : Rat :=
        (List.range w.nP).foldl (fun acc i => (List.range w.nP).foldl (fun acc j => acc + ((W.getD i []).getD j 0) * ((G.getD i []).getD j 0)) acc) 0
      let objs := Ws.map fun W => s!"Minimize:{showRat (dotW W)}:{ncons}"
      pure (e, "prep=" ++ prep ++ " heur=" ++ String.intercalate " " objs)
    | ["dump.sent"] => let (s, _) ← runM e dumpSent; pure (e, s)
    | ["dump.pt", p] => let hp ← lookup e p; let (s, _) ← runM e (do pure (showPDict (← getP hp).d)); pure (e, s)
    | ["dump.ex", x] => let hx ← lookup e x; let (s, _) ← runM e (do pure (showEDict (← getE hx).d)); pure (e, s)
    | ["dump.finish", x] =>
      let hx ← lookup e x
      let (s, _) ← runM e (do
        let d := (← getE hx).d
        let r := EDict.finishReconstruction d
        pure ("sym=" ++ showEDict (EDict.symmetrize d) ++ " stats={const:" ++ showRat r.1 ++ ",printed:" ++ showRat (EDict.remainingAsPrinted d) ++ ",all:" ++ showRat r.2 ++ "}"))
      pure (e, s)
    | ["dump.cons", c] => let hc ← lookup e c; let (s, _) ← runM e (showCons hc); pure (e, s)
    | ["dump.counters"] =>
      pure (e, s!"nP={e.w.nP} nE={e.w.nE} nF={e.w.nF} nPsd={e.w.nPsd} nPart={e.w.nPart}")
    | [op, n, a, b] =>
      if op == "cons.le" || op == "cons.ge" || op == "cons.eq" then
        let ha ← lookup e a; let hb ← lookup e b
        let (h, e) ← runM e (if op == "cons.le" then consLe ha hb else if op == "cons.ge" then consGe ha hb else consEq ha hb)
        pure (bind1 e n h, "ok")
      else if op == "cons.lec" || op == "cons.gec" || op == "cons.eqc" then
        let ha ← lookup e a
        let some r := parseRat b | throw "bad rat"
        let (h, e) ← runM e (if op == "cons.lec" then consLeConst ha r else if op == "cons.gec" then consGeConst ha r else consEqConst ha r)
        pure (bind1 e n h, "ok")
      else if op == "fn.oracle" then throw "bad-op"
      else if op == "part.block4" then throw "bad-op"
      else if op == "fn.gradient" then
        let hf ← lookup e n; let hx ← lookup e a
        let ((g, _), e) ← runM e (oracle hf hx)
        pure (bind1 e b g, "ok")
      else if op == "fn.value" then
        let hf ← lookup e n; let hx ← lookup e a
        let (v, e) ← runM e (value hf hx)
        pure (bind1 e b v, "ok")
      else throw "bad-op"
    | _ => throw "bad-op"
  match res with
  | .ok (e, s) => (e, s)
  | .error msg => (e, "err " ++ msg)

/-- run the op on the world, then mirror it on the value-level machine (with the *pre-state*
dictionaries of the argument objects, as a caller would pass them) -/
def step (e : Env) (line : String) : Env × String :=
  -- `fn.new`: the class constructor called directly (documented alternative to `PEP.declare_function`): same object
  let line := if line.startsWith "fn.new " then "fn.decl " ++ (line.drop 7).toString else line
  -- documented aliases of the public API: `f.subgradient(x)` = `f.gradient(x)`, `f(x)` = `f.value(x)`, `-f` = `(-1) * f`
  let line := if line.startsWith "fn.subgradient " then "fn.gradient " ++ (line.drop 15).toString else line
  let line := if line.startsWith "fn.call " then "fn.value " ++ (line.drop 8).toString else line
  let line := match (line.trimAscii.toString.splitOn " ").filter (· ≠ "") with
    | ["fn.neg", n, a] => s!"fn.smul {n} -1 {a}"
    | _ => line
  let toks := (line.trimAscii.toString.splitOn " ").filter (· ≠ "")
  let pre := e.w
  let (e', out) := stepCore e line
  if toks == ["reset"] then (e', out)
  else if out.startsWith "err" then ({ e' with awOk := false }, out)
  else (mirror e' toks pre, out)

partial def loop (h : IO.FS.Stream) (e : Env) : IO Unit := do
  let line ← h.getLine
  if line.isEmpty then return ()
  let (e', out) := step e line
  IO.println out
  loop h e'

def main : IO Unit := do loop (← IO.getStdin) {}
